package interp

// Engine extension built for C14 (also used by C15): the reflection-based entry points of package errors,
// fmt.Sprintf for the verbs the RPC error path uses, and the JSON / HTTP leaves of the generated twirp code.
// Everything here is a model of a library leaf; the library's callers (twirp, repo code) run from their real SSA.

import (
	"fmt"
	"go/types"

	"golang.org/x/tools/go/ssa"

	"gosym/term"
)

var errorIface = types.Universe.Lookup("error").Type().Underlying().(*types.Interface)

func (r *run) stdFunc(pkg, name string) *ssa.Function {
	p := r.eng.Prog.ImportedPackage(pkg)
	if p == nil {
		panic(unsupported("package " + pkg + " is not part of the loaded program"))
	}
	f := p.Func(name)
	if f == nil {
		panic(unsupported("no function " + pkg + "." + name))
	}
	return f
}

// newError builds errors.New(msg) from the real SSA of package errors.
func (r *run) newError(msg string) Value {
	return r.call(r.stdFunc("errors", "New"), []Value{StrOf(msg)})
}

func ifaceOf(v Value) Iface {
	switch x := v.(type) {
	case Iface:
		return x
	case nil:
		return Iface{}
	}
	panic(unsupported(fmt.Sprintf("expected an interface value, got %T", v)))
}

// method looks a method up in the method set of a dynamic type (nil if absent).
func (r *run) method(t types.Type, name string) *ssa.Function {
	sel := r.eng.Prog.MethodSets.MethodSet(t).Lookup(nil, name)
	if sel == nil {
		return nil
	}
	return r.eng.Prog.MethodValue(sel)
}

// errorsAs is errors.As without reflection: the dynamic types are known to the engine.
func (r *run) errorsAs(err Iface, target Iface, depth int) bool {
	if depth > 32 {
		panic(pathEnd{kind: "unwind", msg: "errors.As chain deeper than 32"})
	}
	pt, _ := target.T.Underlying().(*types.Pointer)
	p, _ := target.V.(*Value)
	et := pt.Elem()
	ifc, isIface := et.Underlying().(*types.Interface)
	for err.T != nil {
		if isIface {
			if types.Implements(err.T, ifc) {
				*p = err
				return true
			}
		} else if types.Identical(err.T, et) {
			*p = copyVal(err.V)
			return true
		}
		if f := r.method(err.T, "As"); f != nil && f.Signature.Params().Len() == 1 && f.Signature.Results().Len() == 1 {
			if r.branch(asTerm(r.call(f, []Value{err.V, target}))) {
				return true
			}
		}
		f := r.method(err.T, "Unwrap")
		if f == nil || f.Signature.Params().Len() != 0 || f.Signature.Results().Len() != 1 {
			return false
		}
		res := r.call(f, []Value{err.V})
		switch rv := res.(type) {
		case Iface:
			err = rv
		case []Value:
			for _, e := range rv {
				if ei := ifaceOf(e); ei.T != nil && r.errorsAs(ei, target, depth+1) {
					return true
				}
			}
			return false
		default:
			return false
		}
	}
	return false
}

// fmtArg renders one operand of a formatting verb.
func (r *run) fmtArg(verb byte, a Value) Str {
	itf := ifaceOf(a)
	if verb == 'T' {
		if itf.T == nil {
			return StrOf("<nil>")
		}
		return StrOf(types.TypeString(itf.T, func(p *types.Package) string { return p.Name() }))
	}
	if itf.T == nil {
		if verb == 's' {
			return StrOf("%!s(<nil>)")
		}
		return StrOf("<nil>")
	}
	switch verb {
	case 's', 'v', 'q':
		var s Str
		if f := r.method(itf.T, "Error"); f != nil && types.Implements(itf.T, errorIface) {
			s = r.call(f, []Value{itf.V}).(Str)
		} else if f := r.method(itf.T, "String"); f != nil && f.Signature.Params().Len() == 0 && f.Signature.Results().Len() == 1 && isString(f.Signature.Results().At(0).Type()) {
			s = r.call(f, []Value{itf.V}).(Str)
		} else if sv, ok := itf.V.(Str); ok {
			s = sv
		} else if t, ok := itf.V.(*term.Term); ok && verb == 'v' {
			w, signed, _ := intInfo(itf.T)
			if w == 0 {
				if r.branch(t) {
					return StrOf("true")
				}
				return StrOf("false")
			}
			return r.fmtInt(t, signed)
		} else {
			panic(unsupported(fmt.Sprintf("fmt verb %%%c on a value of type %s", verb, itf.T)))
		}
		if verb == 'q' {
			c, ok := s.Concrete()
			if !ok {
				panic(unsupported("fmt %q of a symbolic string"))
			}
			return StrOf(fmt.Sprintf("%q", c))
		}
		return s
	case 'd':
		t, ok := itf.V.(*term.Term)
		w, signed, isInt := intInfo(itf.T)
		if !ok || !isInt || w == 0 {
			panic(unsupported(fmt.Sprintf("fmt %%d on a value of type %s", itf.T)))
		}
		return r.fmtInt(t, signed)
	}
	panic(unsupported(fmt.Sprintf("fmt verb %%%c", verb)))
}

// sprintf models fmt.Sprintf for a concrete format string with plain verbs (no flags or widths).
func (r *run) sprintf(format Value, operands Value) Str {
	f, ok := format.(Str).Concrete()
	if !ok {
		panic(unsupported("fmt with a symbolic format string"))
	}
	args, _ := operands.([]Value)
	var out Str
	n := 0
	for i := 0; i < len(f); i++ {
		if f[i] != '%' {
			out = append(out, term.Const(8, uint64(f[i])))
			continue
		}
		i++
		if i >= len(f) {
			panic(unsupported("fmt: format ends in %"))
		}
		if f[i] == '%' {
			out = append(out, term.Const(8, '%'))
			continue
		}
		switch f[i] {
		case 'T', 's', 'v', 'q', 'd':
		default:
			panic(unsupported(fmt.Sprintf("fmt verb %%%c (flags and widths are not modelled)", f[i])))
		}
		if n >= len(args) {
			panic(unsupported("fmt: missing operand"))
		}
		out = append(out, r.fmtArg(f[i], args[n])...)
		n++
	}
	if n != len(args) {
		panic(unsupported("fmt: extra operands"))
	}
	return out
}

func init() {
	RegisterExt(func(m map[string]Intrinsic) {
		// internal/reflectlite.TypeOf(x).Comparable(): the one reflective question errors.Is and context.WithValue ask.
		// TypeOf yields an opaque rtype carrying the engine's static knowledge of the dynamic type.
		m["internal/reflectlite.TypeOf"] = func(r *run, fr *frame, args []Value) Value {
			itf := ifaceOf(args[0])
			if itf.T == nil {
				return Iface{}
			}
			p := r.eng.Prog.ImportedPackage("internal/reflectlite")
			if p == nil || p.Type("rtype") == nil {
				panic(unsupported("internal/reflectlite.rtype not found"))
			}
			return Iface{T: p.Type("rtype").Type(), V: &Opaque{Kind: "rtype", Data: itf.T}}
		}
		m["(internal/reflectlite.rtype).Comparable"] = func(r *run, fr *frame, args []Value) Value {
			o, ok := args[0].(*Opaque)
			if !ok || o.Kind != "rtype" {
				panic(unsupported("reflectlite.rtype not created by the engine"))
			}
			return term.Bool(types.Comparable(o.Data.(types.Type)))
		}
		m["errors.As"] = func(r *run, fr *frame, args []Value) Value {
			err, target := ifaceOf(args[0]), ifaceOf(args[1])
			if err.T == nil {
				return term.False
			}
			if target.T == nil {
				panic(goPanic{v: Iface{T: types.Typ[types.String], V: StrOf("errors: target cannot be nil")}, msg: "errors: target cannot be nil"})
			}
			pt, ok := target.T.Underlying().(*types.Pointer)
			if p, _ := target.V.(*Value); !ok || p == nil {
				panic(goPanic{v: Iface{T: types.Typ[types.String], V: StrOf("errors: target must be a non-nil pointer")}, msg: "errors: target must be a non-nil pointer"})
			}
			if _, isIface := pt.Elem().Underlying().(*types.Interface); !isIface && !types.Implements(pt.Elem(), errorIface) {
				panic(goPanic{v: Iface{T: types.Typ[types.String], V: StrOf("errors: *target must be interface or implement error")}, msg: "errors: *target must be interface or implement error"})
			}
			return term.Bool(r.errorsAs(err, target, 0))
		}
		m["fmt.Sprintf"] = func(r *run, fr *frame, args []Value) Value { return r.sprintf(args[0], args[1]) }
	})
}

// ---------- struct access by field name (library structs whose layout the models touch) ----------

func (r *run) namedType(pkg, name string) types.Type {
	p := r.eng.Prog.ImportedPackage(pkg)
	if p == nil || p.Type(name) == nil {
		panic(unsupported("type " + pkg + "." + name + " is not part of the loaded program"))
	}
	return p.Type(name).Type()
}

func fieldIndex(t types.Type, name string) int {
	if p, ok := t.Underlying().(*types.Pointer); ok {
		t = p.Elem()
	}
	st, ok := t.Underlying().(*types.Struct)
	if !ok {
		panic(unsupported("not a struct type: " + t.String()))
	}
	for i := 0; i < st.NumFields(); i++ {
		if st.Field(i).Name() == name {
			return i
		}
	}
	panic(unsupported("no field " + name + " in " + t.String()))
}

// fieldOf returns the address of a named field of the struct p points to.
func fieldOf(p Value, t types.Type, name string) *Value {
	pv, ok := p.(*Value)
	if !ok || pv == nil {
		panic(unsupported("nil or non-pointer struct reference for field " + name))
	}
	return &(*pv).(Struct)[fieldIndex(t, name)]
}

func bytesValue(s string) []Value {
	out := make([]Value, len(s))
	for i := 0; i < len(s); i++ {
		out[i] = term.Const(8, uint64(s[i]))
	}
	return out
}

// jsonPlain: the byte is one that encoding/json writes unescaped and reads back as itself.
func jsonPlain(b *term.Term) *term.Term {
	c := func(x byte) *term.Term { return term.Const(8, uint64(x)) }
	return term.And(term.And(term.Ule(c(0x20), b), term.Ult(b, c(0x7f))),
		term.And(term.And(term.Not(term.Eq(b, c('"'))), term.Not(term.Eq(b, c('\\')))),
			term.And(term.Not(term.Eq(b, c('<'))), term.And(term.Not(term.Eq(b, c('>'))), term.Not(term.Eq(b, c('&')))))))
}

const jsonNote = "encoding/json: symbolic string bytes are assumed to be printable ASCII other than \" \\ < > & (written and read back unescaped)"
