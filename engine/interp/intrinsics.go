package interp

import (
	"fmt"
	"net"

	"gosym/term"
)

const rtPkg = "go.miragespace.co/specter/zzverifrt."

func strArg(v Value) string {
	s, ok := v.(Str).Concrete()
	if !ok {
		panic(unsupported("rt name argument must be a constant string"))
	}
	return s
}

func DefaultIntrinsics() map[string]Intrinsic {
	m := map[string]Intrinsic{}
	scalar := func(w int) Intrinsic {
		return func(r *run, fr *frame, args []Value) Value { return r.fresh(strArg(args[0]), w) }
	}
	m[rtPkg+"U64"] = scalar(64)
	m[rtPkg+"Int"] = scalar(64)
	m[rtPkg+"U32"] = scalar(32)
	m[rtPkg+"U8"] = scalar(8)
	m[rtPkg+"Bool"] = scalar(0)
	m[rtPkg+"Assume"] = func(r *run, fr *frame, args []Value) Value {
		c := asTerm(args[0])
		if !r.feasible(c) {
			panic(pathEnd{kind: "assume", msg: "assumption infeasible"})
		}
		r.addPC(c)
		return nil
	}
	m[rtPkg+"Assert"] = func(r *run, fr *frame, args []Value) Value {
		r.check(asTerm(args[0]), strArg(args[1]), "assert", "")
		return nil
	}
	m[rtPkg+"Reach"] = func(r *run, fr *frame, args []Value) Value {
		r.witness(strArg(args[0]))
		return nil
	}
	m[rtPkg+"Bytes"] = func(r *run, fr *frame, args []Value) Value {
		name := strArg(args[0])
		max := r.concInt(args[1], "Bytes max")
		n := r.fresh(name+".len", 64)
		r.addPC(term.Ule(n, term.Const(64, uint64(max))))
		ln := int(r.concretize(n, name+".len"))
		res := make([]Value, ln)
		for i := range res {
			res[i] = r.fresh(fmt.Sprintf("%s[%d]", name, i), 8)
		}
		return res
	}
	m[rtPkg+"String"] = func(r *run, fr *frame, args []Value) Value {
		name := strArg(args[0])
		max := r.concInt(args[1], "String max")
		n := r.fresh(name+".len", 64)
		r.addPC(term.Ule(n, term.Const(64, uint64(max))))
		ln := int(r.concretize(n, name+".len"))
		res := make(Str, ln)
		for i := range res {
			res[i] = r.fresh(fmt.Sprintf("%s[%d]", name, i), 8)
		}
		return res
	}
	m[rtPkg+"OneOf"] = func(r *run, fr *frame, args []Value) Value {
		c := asTerm(args[0])
		res := term.False
		for _, b := range args[1].(Str) {
			res = term.Or(res, term.Eq(c, b))
		}
		return res
	}
	m[rtPkg+"Choose"] = func(r *run, fr *frame, args []Value) Value {
		name := strArg(args[0])
		n := r.concInt(args[1], "Choose n")
		v := r.fresh(name, 64)
		r.addPC(term.Ult(v, term.Const(64, uint64(n))))
		return term.Const(64, r.concretize(v, name))
	}

	// internal/bytealg leaf primitives, on symbolic bytes
	m["internal/bytealg.IndexByteString"] = func(r *run, fr *frame, args []Value) Value {
		s := args[0].(Str)
		c := asTerm(args[1])
		for i, b := range s {
			if r.branch(term.Eq(b, c)) {
				return term.Const(64, uint64(i))
			}
		}
		return term.Const(64, ^uint64(0))
	}
	m["internal/bytealg.IndexByte"] = func(r *run, fr *frame, args []Value) Value {
		s := args[0].([]Value)
		c := asTerm(args[1])
		for i, b := range s {
			if r.branch(term.Eq(asTerm(b), c)) {
				return term.Const(64, uint64(i))
			}
		}
		return term.Const(64, ^uint64(0))
	}
	m["internal/bytealg.CountString"] = func(r *run, fr *frame, args []Value) Value {
		s := args[0].(Str)
		c := asTerm(args[1])
		n := term.Const(64, 0)
		for _, b := range s {
			n = term.Add(n, term.BoolToBV(term.Eq(b, c), 64))
		}
		return n
	}
	m["internal/bytealg.IndexString"] = func(r *run, fr *frame, args []Value) Value {
		a, b := args[0].(Str), args[1].(Str)
		for i := 0; i+len(b) <= len(a); i++ {
			if r.branch(strEq(a[i:i+len(b)], b)) {
				return term.Const(64, uint64(i))
			}
		}
		return term.Const(64, ^uint64(0))
	}
	m["internal/bytealg.MakeNoZero"] = func(r *run, fr *frame, args []Value) Value {
		n := r.concInt(args[0], "MakeNoZero")
		res := make([]Value, n)
		for i := range res {
			res[i] = term.Const(8, 0)
		}
		return res
	}
	m["fmt.Errorf"] = func(r *run, fr *frame, args []Value) Value {
		// spike model: error carrying only the format string
		f := args[0].(Str)
		errorsNew := r.eng.Prog.ImportedPackage("errors").Func("New")
		return r.call(errorsNew, []Value{f})
	}
	m["net.ParseIP"] = func(r *run, fr *frame, args []Value) Value {
		s := args[0].(Str)
		if cs, ok := s.Concrete(); ok {
			ip := net.ParseIP(cs)
			if ip == nil {
				return []Value(nil)
			}
			res := make([]Value, len(ip))
			for i, b := range ip {
				res[i] = term.Const(8, uint64(b))
			}
			return res
		}
		// uninterpreted predicate isIP(s): fresh boolean per call site occurrence
		isIP := term.False // spike: symbolic hosts are assumed not to be IP literals
		if r.branch(isIP) {
			res := make([]Value, 16)
			for i := range res {
				res[i] = r.fresh("ipbyte", 8)
			}
			return res
		}
		return []Value(nil)
	}
	noop := func(r *run, fr *frame, args []Value) Value { return nil }
	for _, n := range []string{"Lock", "Unlock", "RLock", "RUnlock"} {
		m["(*sync.RWMutex)."+n] = noop
	}
	m["(*sync.Mutex).Lock"] = noop
	m["(*sync.Mutex).Unlock"] = noop
	m["sync/atomic.LoadUint64"] = func(r *run, fr *frame, args []Value) Value { return *(args[0].(*Value)) }
	m["sync/atomic.StoreUint64"] = func(r *run, fr *frame, args []Value) Value { *(args[0].(*Value)) = args[1]; return nil }
	m["sync/atomic.CompareAndSwapUint64"] = func(r *run, fr *frame, args []Value) Value {
		p := args[0].(*Value)
		if r.branch(term.Eq(asTerm(*p), asTerm(args[1]))) {
			*p = args[2]
			return term.True
		}
		return term.False
	}
	m["github.com/libp2p/go-buffer-pool.Get"] = func(r *run, fr *frame, args []Value) Value {
		n := r.concInt(args[0], "pool.Get size")
		if n < 0 || n > 1<<16 {
			panic(unsupported("pool.Get size out of modelled range"))
		}
		res := make([]Value, n)
		for i := range res {
			res[i] = r.fresh("poolgarbage", 8) // pooled buffers hold arbitrary old contents
		}
		return res
	}
	m["github.com/libp2p/go-buffer-pool.Put"] = func(r *run, fr *frame, args []Value) Value { return nil }
	m["internal/abi.NoEscape"] = func(r *run, fr *frame, args []Value) Value { return args[0] }
	m["internal/stringslite.HasPrefix"] = nil
	delete(m, "internal/stringslite.HasPrefix")
	threadIntrinsics(m)
	rtIntrinsics(m)
	containerIntrinsics(m)
	timeIntrinsics(m)
	atomicIntrinsics(m)
	timerIntrinsics(m)
	stdIntrinsics(m)
	for _, f := range extRegistrars {
		f(m)
	}
	return m
}

// Per-property engine extensions live in their own files (ext_*.go) and register here from init(),
// so that independently developed checks do not edit the same switch statements.
var extRegistrars []func(map[string]Intrinsic)

// RegisterExt adds a function that installs (or overrides) intrinsics; it runs after all built-in ones.
func RegisterExt(f func(map[string]Intrinsic)) { extRegistrars = append(extRegistrars, f) }

// StubPackage makes every function of the package a no-op returning zero values (loggers, metrics).
func StubPackage(path string) { stubPkgs[path] = true }
