package interp

import (
	"hash/crc64"

	"gosym/term"
)

// Extension for C17 (key-range transfer primitives): (*skipmap.Uint64Map).Range over symbolic keys.
//
// The built-in model follows the real ascending key order by case-splitting every symbolic integer key into its
// feasible values, which abandons the path ("shape too wide") when a key can take more than 64 values. C17 needs the
// outer map of kv/memory (hash -> inner map) with hashes that are arbitrary 48-bit values. An obligation that sets the
// bound "range_in_insertion_order": 1 gets the entries visited in insertion order instead, with the keys left
// symbolic; the check states that its oracle does not depend on the order of the listing (it compares sets). Every
// other obligation keeps the built-in behaviour.
func init() {
	RegisterExt(func(m map[string]Intrinsic) {
		const name = "(*github.com/zhangyunhao116/skipmap.Uint64Map).Range"
		orig := m[name]
		m[name] = func(r *run, fr *frame, args []Value) Value {
			if r.eng.Bounds["range_in_insertion_order"] != 1 {
				return orig(r, fr, args)
			}
			r.yieldOn("skipmap.Range", []any{smap(args[0])}, nil)
			mm := smap(args[0])
			keys := append([]Value{}, mm.Keys...)
			vals := append([]Value{}, mm.Vals...)
			sym := false
			for _, k := range keys {
				if t, ok := k.(*term.Term); ok && !t.IsConst() {
					sym = true
				}
			}
			if sym && len(keys) > 1 {
				r.note("skipmap.Uint64Map.Range with symbolic keys visits in insertion order (the oracle compares sets, not sequences)")
			}
			for i := range keys {
				res := r.call(args[1], []Value{keys[i], copyVal(vals[i])})
				if !r.branch(asTerm(res)) {
					break
				}
			}
			return nil
		}
	})
}

// hash/crc64.MakeTable with a concrete polynomial (package kv/aof initialises `crcTable = crc64.MakeTable(crc64.ECMA)`,
// which costs ~8000 interpreted loop iterations on every path and exceeds the default unwinding bound): the table is
// computed by the host library and handed over as a concrete [256]uint64. Nothing is modelled; a symbolic
// polynomial is ENGINE-UNSUPPORTED.
func init() {
	RegisterExt(func(m map[string]Intrinsic) {
		m["hash/crc64.MakeTable"] = func(r *run, fr *frame, args []Value) Value {
			poly := asTerm(args[0])
			if !poly.IsConst() {
				panic(unsupported("hash/crc64.MakeTable with a symbolic polynomial"))
			}
			tab := crc64.MakeTable(poly.Val)
			arr := make(Array, 256)
			for i := range arr {
				arr[i] = term.Const(64, tab[i])
			}
			p := new(Value)
			*p = arr
			return p
		}
	})
}
