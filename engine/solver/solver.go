// Package solver drives one incremental SMT solver process (z3 -in) over pipes.
package solver

import (
	"bufio"
	"fmt"
	"io"
	"os/exec"
	"strings"
	"time"

	"gosym/term"
)

type Result int

const (
	Unsat Result = iota
	Sat
	Unknown
)

func (r Result) String() string { return [...]string{"unsat", "sat", "unknown"}[r] }

type Solver struct {
	cmd     *exec.Cmd
	in      io.WriteCloser
	w       *bufio.Writer
	out     *bufio.Reader
	defined []map[int]bool // per scope: term IDs defined
	declUF  []map[string]bool
	Queries int
	NSat    int
	NUnsat  int
	NUnk    int
	Time    time.Duration
	Log     io.Writer
	timeout int // ms
	dead    bool
}

// Dead reports whether the solver process stopped answering.
func (s *Solver) Dead() bool { return s.dead }

// Eval returns the model values of arbitrary terms (call right after a Sat Check, same scope).
func (s *Solver) Eval(ts []*term.Term) ([]uint64, error) {
	out := make([]uint64, len(ts))
	for i, t := range ts {
		if t.IsConst() {
			out[i] = t.Val
			continue
		}
		r := s.ref(t)
		s.send(fmt.Sprintf("(get-value (%s))", r))
		txt, err := s.readSexp()
		if err != nil {
			return nil, err
		}
		v, ok := parseValue(txt)
		if !ok {
			return nil, fmt.Errorf("cannot parse value: %s", txt)
		}
		out[i] = v
	}
	return out, nil
}

func (s *Solver) readSexp() (string, error) {
	var sb strings.Builder
	depth := 0
	started := false
	for {
		line, err := s.readLine()
		if err != nil {
			s.dead = true
			return "", err
		}
		if strings.HasPrefix(line, "(error") {
			return "", fmt.Errorf("solver error: %s", line)
		}
		sb.WriteString(line + " ")
		for _, c := range line {
			if c == '(' {
				depth++
				started = true
			} else if c == ')' {
				depth--
			}
		}
		if started && depth == 0 {
			return sb.String(), nil
		}
	}
}

func New(bin string, args []string, timeoutMs int) (*Solver, error) {
	cmd := exec.Command(bin, args...)
	in, err := cmd.StdinPipe()
	if err != nil {
		return nil, err
	}
	out, err := cmd.StdoutPipe()
	if err != nil {
		return nil, err
	}
	cmd.Stderr = cmd.Stdout
	if err := cmd.Start(); err != nil {
		return nil, err
	}
	s := &Solver{cmd: cmd, in: in, w: bufio.NewWriterSize(in, 1<<16), out: bufio.NewReaderSize(out, 1<<16), timeout: timeoutMs}
	s.defined = []map[int]bool{{}}
	s.declUF = []map[string]bool{{}}
	s.send("(set-option :print-success false)")
	if strings.Contains(bin, "z3") && timeoutMs > 0 {
		s.send(fmt.Sprintf("(set-option :timeout %d)", timeoutMs))
	}
	return s, nil
}

func (s *Solver) Close() {
	s.w.Flush()
	s.in.Close()
	s.cmd.Process.Kill()
	s.cmd.Wait()
}

func (s *Solver) send(line string) {
	if s.Log != nil {
		fmt.Fprintln(s.Log, line)
	}
	s.w.WriteString(line)
	s.w.WriteByte('\n')
}

func (s *Solver) isDefined(id int) bool {
	for _, m := range s.defined {
		if m[id] {
			return true
		}
	}
	return false
}

func (s *Solver) ufDeclared(n string) bool {
	for _, m := range s.declUF {
		if m[n] {
			return true
		}
	}
	return false
}

// ref makes sure t is defined in the solver and returns its name.
func (s *Solver) ref(t *term.Term) string {
	if t.Op == term.OpConst {
		return t.SMT(nil)
	}
	name := fmt.Sprintf("t%d", t.ID)
	if t.Op == term.OpVar {
		name = "|v." + t.Name + "|"
	}
	if s.isDefined(t.ID) {
		return name
	}
	// define children first (iteratively to avoid deep recursion on long chains)
	for _, a := range t.Args {
		s.ref(a)
	}
	top := s.defined[len(s.defined)-1]
	switch t.Op {
	case term.OpVar:
		s.send(fmt.Sprintf("(declare-const %s %s)", name, t.Sort()))
	case term.OpUF:
		if !s.ufDeclared(t.Name) {
			var sb strings.Builder
			for i, a := range t.Args {
				if i > 0 {
					sb.WriteString(" ")
				}
				sb.WriteString(a.Sort())
			}
			s.send(fmt.Sprintf("(declare-fun |%s| (%s) %s)", t.Name, sb.String(), t.Sort()))
			s.declUF[len(s.declUF)-1][t.Name] = true
		}
		s.send(fmt.Sprintf("(define-fun %s () %s %s)", name, t.Sort(), t.SMT(s.ref)))
	default:
		s.send(fmt.Sprintf("(define-fun %s () %s %s)", name, t.Sort(), t.SMT(s.ref)))
	}
	top[t.ID] = true
	return name
}

func (s *Solver) Push() {
	s.send("(push 1)")
	s.defined = append(s.defined, map[int]bool{})
	s.declUF = append(s.declUF, map[string]bool{})
}

func (s *Solver) Pop() {
	s.send("(pop 1)")
	s.defined = s.defined[:len(s.defined)-1]
	s.declUF = s.declUF[:len(s.declUF)-1]
}

func (s *Solver) Depth() int { return len(s.defined) - 1 }

func (s *Solver) Assert(t *term.Term) {
	if t.IsTrue() {
		return
	}
	r := s.ref(t)
	s.send(fmt.Sprintf("(assert %s)", r))
}

func (s *Solver) readLine() (string, error) {
	if s.w.Buffered() > 0 {
		s.w.Flush()
	}
	line, err := s.out.ReadString('\n')
	return strings.TrimSpace(line), err
}

func (s *Solver) Check() (Result, error) {
	start := time.Now()
	s.send("(check-sat)")
	s.Queries++
	defer func() { s.Time += time.Since(start) }()
	for {
		line, err := s.readLine()
		if err != nil {
			s.dead = true
			s.NUnk++
			return Unknown, err
		}
		switch {
		case line == "sat":
			s.NSat++
			return Sat, nil
		case line == "unsat":
			s.NUnsat++
			return Unsat, nil
		case line == "unknown" || line == "timeout":
			s.NUnk++
			return Unknown, nil
		case strings.HasPrefix(line, "(error"):
			s.NUnk++
			return Unknown, fmt.Errorf("solver error: %s", line)
		case line == "":
		default:
			// ignore warnings
		}
	}
}

// CheckWith checks satisfiability of the current assertions plus extra.
func (s *Solver) CheckWith(extra *term.Term) (Result, error) {
	if extra.IsFalse() {
		return Unsat, nil
	}
	s.Push()
	s.Assert(extra)
	r, err := s.Check()
	s.Pop()
	return r, err
}

// Values returns the model values of the given variables (call right after a Sat Check, same scope).
func (s *Solver) Values(vars []*term.Term) (map[string]uint64, error) {
	res := map[string]uint64{}
	for _, v := range vars {
		r := s.ref(v)
		s.send(fmt.Sprintf("(get-value (%s))", r))
		// response like ((|x| #x0000...)) possibly multi-line
		var sb strings.Builder
		depth := 0
		started := false
		for {
			line, err := s.readLine()
			if err != nil {
				return nil, err
			}
			if strings.HasPrefix(line, "(error") {
				return nil, fmt.Errorf("solver error: %s", line)
			}
			sb.WriteString(line + " ")
			for _, c := range line {
				if c == '(' {
					depth++
					started = true
				} else if c == ')' {
					depth--
				}
			}
			if started && depth == 0 {
				break
			}
		}
		txt := sb.String()
		val, ok := parseValue(txt)
		if !ok {
			return nil, fmt.Errorf("cannot parse value: %s", txt)
		}
		res[v.Name] = val
	}
	return res, nil
}

func parseValue(txt string) (uint64, bool) {
	txt = strings.TrimSpace(txt)
	// take last token before the closing parens
	txt = strings.TrimRight(txt, ") ")
	i := strings.LastIndexAny(txt, " (")
	tok := txt[i+1:]
	switch {
	case tok == "true":
		return 1, true
	case tok == "false":
		return 0, true
	case strings.HasPrefix(tok, "#x"):
		var v uint64
		_, err := fmt.Sscanf(tok[2:], "%x", &v)
		return v, err == nil
	case strings.HasPrefix(tok, "#b"):
		var v uint64
		_, err := fmt.Sscanf(tok[2:], "%b", &v)
		return v, err == nil
	}
	// (_ bv123 64) form
	if j := strings.LastIndex(txt, "(_ bv"); j >= 0 {
		var v uint64
		var w int
		if _, err := fmt.Sscanf(txt[j:], "(_ bv%d %d", &v, &w); err == nil {
			return v, true
		}
	}
	return 0, false
}

// Script renders a standalone SMT-LIB2 script asserting all of ts, ending in (check-sat).
func Script(ts []*term.Term, header string) string {
	var sb strings.Builder
	sb.WriteString(header)
	defined := map[int]bool{}
	ufs := map[string]bool{}
	var ref func(t *term.Term) string
	ref = func(t *term.Term) string {
		if t.Op == term.OpConst {
			return t.SMT(nil)
		}
		name := fmt.Sprintf("t%d", t.ID)
		if t.Op == term.OpVar {
			name = "|v." + t.Name + "|"
		}
		if defined[t.ID] {
			return name
		}
		for _, a := range t.Args {
			ref(a)
		}
		switch t.Op {
		case term.OpVar:
			fmt.Fprintf(&sb, "(declare-const %s %s)\n", name, t.Sort())
		case term.OpUF:
			if !ufs[t.Name] {
				var as strings.Builder
				for i, a := range t.Args {
					if i > 0 {
						as.WriteString(" ")
					}
					as.WriteString(a.Sort())
				}
				fmt.Fprintf(&sb, "(declare-fun |%s| (%s) %s)\n", t.Name, as.String(), t.Sort())
				ufs[t.Name] = true
			}
			fmt.Fprintf(&sb, "(define-fun %s () %s %s)\n", name, t.Sort(), t.SMT(ref))
		default:
			fmt.Fprintf(&sb, "(define-fun %s () %s %s)\n", name, t.Sort(), t.SMT(ref))
		}
		defined[t.ID] = true
		return name
	}
	for _, t := range ts {
		r := ref(t)
		fmt.Fprintf(&sb, "(assert %s)\n", r)
	}
	sb.WriteString("(check-sat)\n")
	return sb.String()
}

// RunScript runs a one-shot solver on a script and returns sat/unsat/unknown (any error line = unknown).
func RunScript(bin string, args []string, script string, timeout time.Duration) string {
	cmd := exec.Command(bin, args...)
	cmd.Stdin = strings.NewReader(script)
	done := make(chan struct{})
	var out []byte
	go func() { out, _ = cmd.CombinedOutput(); close(done) }()
	select {
	case <-done:
	case <-time.After(timeout):
		if cmd.Process != nil {
			cmd.Process.Kill()
		}
		<-done
		return "unknown"
	}
	txt := string(out)
	if strings.Contains(txt, "(error") {
		return "unknown"
	}
	res := "unknown"
	for _, l := range strings.Split(txt, "\n") {
		l = strings.TrimSpace(l)
		if l == "sat" || l == "unsat" {
			res = l
		}
	}
	return res
}

// OneShot decides the conjunction of ts with a fresh non-incremental solver process (z3's one-shot tactics often
// decide bit-vector queries that the incremental core gives up on). On sat, vars are evaluated.
func OneShot(bin string, args []string, ts []*term.Term, vars []*term.Term, timeout time.Duration) (Result, map[string]uint64) {
	script := Script(ts, "")
	if len(vars) > 0 {
		var sb strings.Builder
		for _, v := range vars {
			sb.WriteString(fmt.Sprintf("(get-value (|v.%s|))\n", v.Name))
		}
		script += sb.String()
	}
	cmd := exec.Command(bin, args...)
	cmd.Stdin = strings.NewReader(script)
	done := make(chan struct{})
	var out []byte
	go func() { out, _ = cmd.CombinedOutput(); close(done) }()
	select {
	case <-done:
	case <-time.After(timeout):
		if cmd.Process != nil {
			cmd.Process.Kill()
		}
		<-done
		return Unknown, nil
	}
	lines := strings.Split(string(out), "\n")
	res := Unknown
	model := map[string]uint64{}
	declared := map[string]bool{}
	for _, v := range vars {
		declared[v.Name] = true
	}
	for _, l := range lines {
		l = strings.TrimSpace(l)
		switch {
		case l == "sat":
			res = Sat
		case l == "unsat":
			return Unsat, nil
		case strings.HasPrefix(l, "((|v."):
			// ((|v.name| #x...))
			rest := l[5:]
			i := strings.Index(rest, "| ")
			if i < 0 {
				continue
			}
			name := rest[:i]
			if v, ok := parseValue(rest[i+1:]); ok {
				model[name] = v
			}
		case strings.HasPrefix(l, "(error") && res != Sat:
			// an error before check-sat makes the answer meaningless; errors from get-value of variables that do
			// not occur in the script are harmless
			if !strings.Contains(l, "unknown constant") && !strings.Contains(l, "get-value") {
				return Unknown, nil
			}
		}
	}
	return res, model
}
