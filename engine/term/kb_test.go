package term
import "testing"
func TestKB(t *testing.T) {
	x := Var("x", 64)
	v := BOr(x, Const(64, 1<<63))
	if !Ule(Const(64,128), v).IsTrue() { t.Fatal("1") }
	v2 := LShr(v, Const(64,7))
	if !Ule(Const(64,128), v2).IsTrue() { t.Fatal("2") }
	b := BOr(Resize(v,8,false), Const(8,0x80))
	if !Ult(b, Const(8,0x80)).IsFalse() { t.Fatal("3") }
	a := BAnd(x, Const(64,0x7f))
	if !Ult(a, Const(64,0x80)).IsTrue() { t.Fatal("4") }
	if Ult(x, Const(64,5)).IsConst() { t.Fatal("5") }
	s := Shl(Resize(Var("y",8),64,false), Const(64,8))
	if !Ult(s, Const(64,1<<16)).IsTrue() { t.Fatal("6") }
}
