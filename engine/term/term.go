// Package term is a hash-consed bit-vector/bool term DAG with constant folding.
package term

import (
	"fmt"
	"strings"
	"sync"
)

type Op uint8

const (
	OpConst Op = iota
	OpVar
	OpNot // bool
	OpAnd
	OpOr
	OpEq
	OpUlt
	OpUle
	OpSlt
	OpSle
	OpIte
	OpAdd
	OpSub
	OpMul
	OpUDiv
	OpURem
	OpSDiv
	OpSRem
	OpShl
	OpLShr
	OpAShr
	OpBAnd
	OpBOr
	OpBXor
	OpBNot
	OpNeg
	OpZExt
	OpSExt
	OpExtract // Val = low bit; W = width
	OpConcat
	OpUF // uninterpreted function application: Name, Args
)

var opName = map[Op]string{
	OpNot: "not", OpAnd: "and", OpOr: "or", OpEq: "=", OpUlt: "bvult", OpUle: "bvule", OpSlt: "bvslt", OpSle: "bvsle",
	OpIte: "ite", OpAdd: "bvadd", OpSub: "bvsub", OpMul: "bvmul", OpUDiv: "bvudiv", OpURem: "bvurem", OpSDiv: "bvsdiv",
	OpSRem: "bvsrem", OpShl: "bvshl", OpLShr: "bvlshr", OpAShr: "bvashr", OpBAnd: "bvand", OpBOr: "bvor", OpBXor: "bvxor",
	OpBNot: "bvnot", OpNeg: "bvneg", OpConcat: "concat",
}

// Term: W==0 means Bool (Val 0/1 for constants).
type Term struct {
	Op   Op
	W    int
	Val  uint64
	Name string
	Args []*Term
	ID   int

	kbDone     bool   // known-bits cache (bit-vector terms): bits known to be 0 / known to be 1
	kb0, kb1   uint64
}

var (
	mu    sync.Mutex
	table = map[string]*Term{}
	nexti int
)

func key(op Op, w int, val uint64, name string, args []*Term) string {
	var sb strings.Builder
	fmt.Fprintf(&sb, "%d|%d|%d|%s", op, w, val, name)
	for _, a := range args {
		fmt.Fprintf(&sb, "|%d", a.ID)
	}
	return sb.String()
}

func mk(op Op, w int, val uint64, name string, args ...*Term) *Term {
	k := key(op, w, val, name, args)
	mu.Lock()
	defer mu.Unlock()
	if t, ok := table[k]; ok {
		return t
	}
	nexti++
	t := &Term{Op: op, W: w, Val: val, Name: name, Args: args, ID: nexti}
	table[k] = t
	return t
}

func mask(w int) uint64 {
	if w >= 64 {
		return ^uint64(0)
	}
	return (uint64(1) << uint(w)) - 1
}

func Const(w int, v uint64) *Term { return mk(OpConst, w, v&mask(w), "") }
func Bool(b bool) *Term {
	if b {
		return mk(OpConst, 0, 1, "")
	}
	return mk(OpConst, 0, 0, "")
}

var True, False = Bool(true), Bool(false)

func Var(name string, w int) *Term { return mk(OpVar, w, 0, name) }

func (t *Term) IsConst() bool { return t.Op == OpConst }
func (t *Term) IsBool() bool  { return t.W == 0 }
func (t *Term) IsTrue() bool  { return t.Op == OpConst && t.W == 0 && t.Val == 1 }
func (t *Term) IsFalse() bool { return t.Op == OpConst && t.W == 0 && t.Val == 0 }

// signed value of a constant
func (t *Term) SVal() int64 {
	if t.W >= 64 {
		return int64(t.Val)
	}
	if t.Val&(1<<uint(t.W-1)) != 0 {
		return int64(t.Val | ^mask(t.W))
	}
	return int64(t.Val)
}

func Not(a *Term) *Term {
	if a.IsConst() {
		return Bool(a.Val == 0)
	}
	if a.Op == OpNot {
		return a.Args[0]
	}
	return mk(OpNot, 0, 0, "", a)
}

func And(a, b *Term) *Term {
	if a.IsFalse() || b.IsFalse() {
		return False
	}
	if a.IsTrue() {
		return b
	}
	if b.IsTrue() {
		return a
	}
	if a == b {
		return a
	}
	return mk(OpAnd, 0, 0, "", a, b)
}

func Or(a, b *Term) *Term {
	if a.IsTrue() || b.IsTrue() {
		return True
	}
	if a.IsFalse() {
		return b
	}
	if b.IsFalse() {
		return a
	}
	if a == b {
		return a
	}
	return mk(OpOr, 0, 0, "", a, b)
}

func Eq(a, b *Term) *Term {
	if a.W != b.W {
		panic(fmt.Sprintf("Eq width mismatch %d %d", a.W, b.W))
	}
	if a == b {
		return True
	}
	if a.IsConst() && b.IsConst() {
		return Bool(a.Val == b.Val)
	}
	if a.W == 0 {
		if a.IsConst() {
			if a.Val == 1 {
				return b
			}
			return Not(b)
		}
		if b.IsConst() {
			if b.Val == 1 {
				return a
			}
			return Not(a)
		}
	}
	if a.W > 0 {
		az, ao := a.KnownBits()
		bz, bo := b.KnownBits()
		if az&bo != 0 || ao&bz != 0 {
			return False // some bit is known 0 on one side and known 1 on the other
		}
	}
	if a.ID > b.ID {
		a, b = b, a
	}
	return mk(OpEq, 0, 0, "", a, b)
}

func Ite(c, a, b *Term) *Term {
	if c.IsTrue() {
		return a
	}
	if c.IsFalse() {
		return b
	}
	if a == b {
		return a
	}
	if a.W == 0 {
		if a.IsTrue() && b.IsFalse() {
			return c
		}
		if a.IsFalse() && b.IsTrue() {
			return Not(c)
		}
	}
	return mk(OpIte, a.W, 0, "", c, a, b)
}

func cmp(op Op, a, b *Term) *Term {
	if a.W != b.W {
		panic(fmt.Sprintf("cmp width mismatch %d %d", a.W, b.W))
	}
	if a.IsConst() && b.IsConst() {
		switch op {
		case OpUlt:
			return Bool(a.Val < b.Val)
		case OpUle:
			return Bool(a.Val <= b.Val)
		case OpSlt:
			return Bool(a.SVal() < b.SVal())
		case OpSle:
			return Bool(a.SVal() <= b.SVal())
		}
	}
	if a == b {
		return Bool(op == OpUle || op == OpSle)
	}
	if op == OpUlt || op == OpUle {
		// decide by unsigned ranges derived from known bits (e.g. (x | 0x80) >= 0x80, (x & 0x7f) < 0x80)
		amin, amax := a.URange()
		bmin, bmax := b.URange()
		switch op {
		case OpUlt:
			if amax < bmin {
				return True
			}
			if amin >= bmax {
				return False
			}
		case OpUle:
			if amax <= bmin {
				return True
			}
			if amin > bmax {
				return False
			}
		}
	}
	return mk(op, 0, 0, "", a, b)
}

// KnownBits returns the masks of bits that are 0 and that are 1 in every value of the bit-vector term
// (a sound under-approximation computed structurally; cached).
func (t *Term) KnownBits() (zeros, ones uint64) {
	if t.W == 0 {
		return 0, 0
	}
	if t.kbDone {
		return t.kb0, t.kb1
	}
	m := mask(t.W)
	var z, o uint64
	switch t.Op {
	case OpConst:
		z, o = ^t.Val&m, t.Val
	case OpBAnd:
		az, ao := t.Args[0].KnownBits()
		bz, bo := t.Args[1].KnownBits()
		z, o = az|bz, ao&bo
	case OpBOr:
		az, ao := t.Args[0].KnownBits()
		bz, bo := t.Args[1].KnownBits()
		z, o = az&bz, ao|bo
	case OpBXor:
		az, ao := t.Args[0].KnownBits()
		bz, bo := t.Args[1].KnownBits()
		z, o = (az&bz)|(ao&bo), (az&bo)|(ao&bz)
	case OpBNot:
		az, ao := t.Args[0].KnownBits()
		z, o = ao, az
	case OpIte:
		az, ao := t.Args[1].KnownBits()
		bz, bo := t.Args[2].KnownBits()
		z, o = az&bz, ao&bo
	case OpZExt:
		az, ao := t.Args[0].KnownBits()
		z, o = az|(m&^mask(t.Args[0].W)), ao
	case OpExtract:
		az, ao := t.Args[0].KnownBits()
		z, o = az&m, ao&m
	case OpShl:
		if c := t.Args[1]; c.IsConst() && c.Val < uint64(t.W) {
			az, ao := t.Args[0].KnownBits()
			z, o = (az<<c.Val)|mask(int(c.Val)), ao<<c.Val
		}
	case OpLShr:
		if c := t.Args[1]; c.IsConst() && c.Val < uint64(t.W) {
			az, ao := t.Args[0].KnownBits()
			z, o = (az>>c.Val)|(m&^(m>>c.Val)), ao>>c.Val
		}
	}
	t.kb0, t.kb1 = z&m, o&m
	t.kbDone = true
	return t.kb0, t.kb1
}

// URange is the unsigned interval implied by the known bits.
func (t *Term) URange() (min, max uint64) {
	z, o := t.KnownBits()
	return o, mask(t.W) &^ z
}

func Ult(a, b *Term) *Term { return cmp(OpUlt, a, b) }
func Ule(a, b *Term) *Term { return cmp(OpUle, a, b) }
func Slt(a, b *Term) *Term { return cmp(OpSlt, a, b) }
func Sle(a, b *Term) *Term { return cmp(OpSle, a, b) }

func bin(op Op, a, b *Term) *Term {
	if a.W != b.W {
		panic(fmt.Sprintf("bin %v width mismatch %d %d", opName[op], a.W, b.W))
	}
	w := a.W
	if a.IsConst() && b.IsConst() {
		x, y := a.Val, b.Val
		switch op {
		case OpAdd:
			return Const(w, x+y)
		case OpSub:
			return Const(w, x-y)
		case OpMul:
			return Const(w, x*y)
		case OpUDiv:
			if y == 0 {
				return Const(w, mask(w))
			}
			return Const(w, x/y)
		case OpURem:
			if y == 0 {
				return Const(w, x)
			}
			return Const(w, x%y)
		case OpSDiv:
			if y != 0 {
				sx, sy := a.SVal(), b.SVal()
				if !(sy == -1) {
					return Const(w, uint64(sx/sy))
				}
				return Const(w, uint64(-sx))
			}
		case OpSRem:
			if y != 0 {
				sx, sy := a.SVal(), b.SVal()
				if sy == -1 {
					return Const(w, 0)
				}
				return Const(w, uint64(sx%sy))
			}
		case OpShl:
			if y >= uint64(w) {
				return Const(w, 0)
			}
			return Const(w, x<<y)
		case OpLShr:
			if y >= uint64(w) {
				return Const(w, 0)
			}
			return Const(w, x>>y)
		case OpAShr:
			sx := a.SVal()
			if y >= uint64(w) {
				y = uint64(w - 1)
			}
			return Const(w, uint64(sx>>y))
		case OpBAnd:
			return Const(w, x&y)
		case OpBOr:
			return Const(w, x|y)
		case OpBXor:
			return Const(w, x^y)
		}
	}
	// light identities
	switch op {
	case OpAdd, OpBOr, OpBXor:
		if a.IsConst() && a.Val == 0 {
			return b
		}
		if b.IsConst() && b.Val == 0 {
			return a
		}
	case OpSub, OpShl, OpLShr, OpAShr:
		if b.IsConst() && b.Val == 0 {
			return a
		}
	case OpBAnd:
		if a.IsConst() && a.Val == mask(w) {
			return b
		}
		if b.IsConst() && b.Val == mask(w) {
			return a
		}
		if (a.IsConst() && a.Val == 0) || (b.IsConst() && b.Val == 0) {
			return Const(w, 0)
		}
	case OpMul:
		if a.IsConst() && a.Val == 1 {
			return b
		}
		if b.IsConst() && b.Val == 1 {
			return a
		}
	}
	return mk(op, w, 0, "", a, b)
}

func Add(a, b *Term) *Term  { return bin(OpAdd, a, b) }
func Sub(a, b *Term) *Term  { return bin(OpSub, a, b) }
func Mul(a, b *Term) *Term  { return bin(OpMul, a, b) }
func UDiv(a, b *Term) *Term { return bin(OpUDiv, a, b) }
func URem(a, b *Term) *Term { return bin(OpURem, a, b) }
func SDiv(a, b *Term) *Term { return bin(OpSDiv, a, b) }
func SRem(a, b *Term) *Term { return bin(OpSRem, a, b) }
func Shl(a, b *Term) *Term  { return bin(OpShl, a, b) }
func LShr(a, b *Term) *Term { return bin(OpLShr, a, b) }
func AShr(a, b *Term) *Term { return bin(OpAShr, a, b) }
func BAnd(a, b *Term) *Term { return bin(OpBAnd, a, b) }
func BOr(a, b *Term) *Term  { return bin(OpBOr, a, b) }
func BXor(a, b *Term) *Term { return bin(OpBXor, a, b) }

func BNot(a *Term) *Term {
	if a.IsConst() {
		return Const(a.W, ^a.Val)
	}
	return mk(OpBNot, a.W, 0, "", a)
}
func Neg(a *Term) *Term {
	if a.IsConst() {
		return Const(a.W, -a.Val)
	}
	return mk(OpNeg, a.W, 0, "", a)
}

// Resize converts a to width w, sign- or zero-extending, or truncating.
func Resize(a *Term, w int, signed bool) *Term {
	if a.W == w {
		return a
	}
	if a.W == 0 {
		panic("Resize on bool")
	}
	if w < a.W {
		if a.IsConst() {
			return Const(w, a.Val)
		}
		return mk(OpExtract, w, 0, "", a)
	}
	if a.IsConst() {
		if signed {
			return Const(w, uint64(a.SVal()))
		}
		return Const(w, a.Val)
	}
	if signed {
		return mk(OpSExt, w, 0, "", a)
	}
	return mk(OpZExt, w, 0, "", a)
}

// BoolToBV converts a Bool term into a 1/0 bit-vector of width w.
func BoolToBV(b *Term, w int) *Term { return Ite(b, Const(w, 1), Const(w, 0)) }

func UF(name string, w int, args ...*Term) *Term { return mk(OpUF, w, 0, name, args...) }

func sortOf(w int) string {
	if w == 0 {
		return "Bool"
	}
	return fmt.Sprintf("(_ BitVec %d)", w)
}

func (t *Term) Sort() string { return sortOf(t.W) }

// SMT prints the node using tN references for non-leaf children.
func (t *Term) SMT(ref func(*Term) string) string {
	switch t.Op {
	case OpConst:
		if t.W == 0 {
			if t.Val == 1 {
				return "true"
			}
			return "false"
		}
		if t.W%4 == 0 {
			return fmt.Sprintf("#x%0*x", t.W/4, t.Val)
		}
		return fmt.Sprintf("#b%0*b", t.W, t.Val)
	case OpVar:
		return "|v." + t.Name + "|"
	case OpZExt:
		return fmt.Sprintf("((_ zero_extend %d) %s)", t.W-t.Args[0].W, ref(t.Args[0]))
	case OpSExt:
		return fmt.Sprintf("((_ sign_extend %d) %s)", t.W-t.Args[0].W, ref(t.Args[0]))
	case OpExtract:
		return fmt.Sprintf("((_ extract %d 0) %s)", t.W-1, ref(t.Args[0]))
	case OpUF:
		if len(t.Args) == 0 {
			return "|" + t.Name + "|"
		}
		var sb strings.Builder
		sb.WriteString("(|" + t.Name + "|")
		for _, a := range t.Args {
			sb.WriteString(" " + ref(a))
		}
		sb.WriteString(")")
		return sb.String()
	}
	var sb strings.Builder
	sb.WriteString("(" + opName[t.Op])
	for _, a := range t.Args {
		sb.WriteString(" " + ref(a))
	}
	sb.WriteString(")")
	return sb.String()
}

func (t *Term) String() string {
	return t.SMT(func(a *Term) string { return a.String() })
}
