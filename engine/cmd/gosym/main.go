// gosym: solver-based checks of zllovesuki/specter (see /verif/DESIGN.md).
//
//	gosym check <ID> --tier quick|thorough [--only <obligation>] [-v]
//	gosym replay <file>
package main

import (
	"fmt"
	"os"
	"path/filepath"
	"strconv"

	"gosym/driver"
)

func verifDir() string {
	if v := os.Getenv("VERIF_DIR"); v != "" {
		return v
	}
	exe, err := os.Executable()
	if err == nil {
		d := filepath.Dir(filepath.Dir(exe))
		if _, err := os.Stat(filepath.Join(d, "properties.jsonl")); err == nil {
			return d
		}
	}
	wd, _ := os.Getwd()
	return wd
}

func main() {
	if len(os.Args) < 3 {
		fmt.Println("usage: gosym check <ID> --tier quick|thorough | gosym replay <file>")
		os.Exit(2)
	}
	cfg := &driver.Config{Verif: verifDir(), Tier: "quick"}
	if t := os.Getenv("VERIF_TIER"); t == "quick" || t == "thorough" {
		cfg.Tier = t
	}
	if s := os.Getenv("VERIF_SEED"); s != "" {
		if n, err := strconv.ParseInt(s, 10, 64); err == nil {
			cfg.Seed = n
		}
	}
	if w := os.Getenv("VERIF_WORKERS"); w != "" {
		cfg.Workers, _ = strconv.Atoi(w)
	}
	args := os.Args[3:]
	for i := 0; i < len(args); i++ {
		switch args[i] {
		case "--tier":
			i++
			if i < len(args) {
				cfg.Tier = args[i]
			}
		case "--only":
			i++
			if i < len(args) {
				cfg.Only = args[i]
			}
		case "-v":
			cfg.Verbose = true
		case "--repo":
			i++
			if i < len(args) {
				cfg.Repo = args[i]
			}
		}
	}
	switch os.Args[1] {
	case "check":
		os.Exit(driver.Check(cfg, os.Args[2]))
	case "replay":
		os.Exit(driver.ReplayPath(cfg, os.Args[2]))
	}
	fmt.Println("unknown command", os.Args[1])
	os.Exit(2)
}
