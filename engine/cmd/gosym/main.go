package main

import (
	"encoding/json"
	"flag"
	"fmt"
	"os"
	"path/filepath"
	"sort"
	"strings"
	"time"

	"golang.org/x/tools/go/packages"
	"golang.org/x/tools/go/ssa"
	"golang.org/x/tools/go/ssa/ssautil"

	"gosym/interp"
	"gosym/solver"
)

func main() {
	repo := flag.String("repo", "/repo", "repository root")
	pkgPath := flag.String("pkg", "", "package dir relative to repo (e.g. ./spec/chord)")
	harness := flag.String("harness", "", "harness file to inject into the package")
	rt := flag.String("rt", "", "zzverifrt source file")
	fn := flag.String("fn", "", "harness function name")
	maxPaths := flag.Int("paths", 10000, "path budget")
	logq := flag.String("logq", "", "write solver log here")
	flag.Parse()

	t0 := time.Now()
	overlay := map[string][]byte{}
	b, err := os.ReadFile(*rt)
	check(err)
	overlay[filepath.Join(*repo, "zzverifrt", "rt.go")] = b
	b, err = os.ReadFile(*harness)
	check(err)
	overlay[filepath.Join(*repo, *pkgPath, "zz_verif_harness.go")] = b
	if extra := os.Getenv("EXTRA_OVERLAY"); extra != "" {
		for _, kv := range strings.Split(extra, ",") {
			p := strings.SplitN(kv, "=", 2)
			b, err := os.ReadFile(p[1])
			check(err)
			overlay[p[0]] = b
		}
	}
	cfg := &packages.Config{Mode: packages.LoadAllSyntax, Dir: *repo, Overlay: overlay}
	pkgs, err := packages.Load(cfg, *pkgPath)
	check(err)
	if packages.PrintErrors(pkgs) > 0 {
		fmt.Println("INCONCLUSIVE harness does not build")
		os.Exit(0)
	}
	prog, spkgs := ssautil.AllPackages(pkgs, ssa.InstantiateGenerics)
	prog.Build()
	tLoad := time.Since(t0)
	f := spkgs[0].Func(*fn)
	if f == nil {
		fmt.Println("no such function", *fn)
		os.Exit(2)
	}
	bounds := map[string]int{}
	for _, kv := range strings.Split(os.Getenv("BOUNDS"), ",") {
		var k string
		var v int
		if n, _ := fmt.Sscanf(strings.Replace(kv, "=", " ", 1), "%s %d", &k, &v); n == 2 {
			bounds[k] = v
		}
	}
	eng := &interp.Engine{Bounds: bounds, Prog: prog, Intrinsics: interp.DefaultIntrinsics(), MaxLoop: 64, MaxDepth: 64, MaxWidth: 64, MaxPreempt: 2}
	eng.NewSolver = func() (*solver.Solver, error) {
		s, err := solver.New("z3", []string{"-in"}, 20000)
		if err == nil && *logq != "" {
			lf, _ := os.Create(*logq)
			s.Log = lf
		}
		return s, err
	}
	t1 := time.Now()
	err = eng.Explore(f, *maxPaths)
	tRun := time.Since(t1)
	out := map[string]int{}
	for _, p := range eng.Paths {
		out[p.Outcome]++
		if p.Outcome != "ok" && p.Outcome != "assume" {
			fmt.Printf("  path %s: %s\n", p.Outcome, p.Msg)
		}
	}
	fmt.Printf("load %.1fs run %.2fs paths=%d outcomes=%v queries=%d solver=%.2fs decisions=%d err=%v\n", tLoad.Seconds(), tRun.Seconds(), len(eng.Paths), out, eng.Queries, eng.SolverTime, eng.Decisions, err)
	var fns []string
	for fn, n := range eng.Funcs {
		fns = append(fns, fmt.Sprintf("%s(%d)", fn.String(), n))
	}
	sort.Strings(fns)
	fmt.Println("functions encoded:", strings.Join(fns, " "))
	for l, m := range eng.Reached {
		j, _ := json.Marshal(m)
		fmt.Printf("reach %s: %s\n", l, j)
	}
	for _, v := range eng.Violations {
		j, _ := json.Marshal(v.Model)
		fmt.Printf("VIOLATION-CANDIDATE %s (%s %s): %s\n", v.Label, v.Kind, v.Detail, j)
	}
}

func check(err error) {
	if err != nil {
		fmt.Println("error:", err)
		os.Exit(2)
	}
}
