// Package zzverifrt: nondeterministic inputs, assumptions and assertions for harnesses.
package zzverifrt

func U64(name string) uint64             { return 0 }
func U32(name string) uint32             { return 0 }
func U8(name string) uint8               { return 0 }
func Int(name string) int                { return 0 }
func Bool(name string) bool              { return false }
func Bytes(name string, max int) []byte  { return nil }
func String(name string, max int) string { return "" }
func Choose(name string, n int) int      { return 0 }
func Assume(c bool)                      {}
func Assert(c bool, label string) {
	if !c {
		panic("assertion failed: " + label)
	}
}
func Reach(label string) {}

func Bound(name string) int { return 0 }

// OneOf reports whether c is one of the bytes of set (no short-circuit: a single disjunction term).
func OneOf(c byte, set string) bool {
	for i := 0; i < len(set); i++ {
		if set[i] == c {
			return true
		}
	}
	return false
}

func Yield() {}
