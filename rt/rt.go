// Package zzverifrt: nondeterministic inputs, assumptions and assertions for verification harnesses.
//
// Under the gosym engine every function here is intercepted (the bodies are not executed): inputs
// become SMT variables, Assume/Assert become solver queries. Natively (replay of a solver model with
// `go test -overlay`) the bodies below run: inputs are read from the model file named by
// $VERIF_REPLAY, Assert records failures.
package zzverifrt

import (
	"encoding/json"
	"fmt"
	"os"
	"reflect"
	"sort"
	"time"
)

// Now is the symbolic clock: in the engine an arbitrary non-decreasing instant (time.Now itself is modelled the
// same way); natively the model's value.
func Now() time.Time { return TimeOf(I64("now")) }

// ClockReading returns the i-th instant the code under test obtained from the clock on this path (negative i counts
// from the end). Engine only: natively the real clock is used and harnesses that need this are replayed in the engine.
func ClockReading(i int) int64 { return 0 }

// ClockReadings is the number of clock readings made so far.
func ClockReadings() int { return 0 }

// TimeOf builds the Time whose instant is ns nanoseconds since the Unix epoch; 0 stands for the zero Time.
func TimeOf(ns int64) time.Time {
	if ns == 0 {
		return time.Time{}
	}
	return time.Unix(0, ns).UTC()
}

// NanoOf is the inverse of TimeOf.
func NanoOf(t time.Time) int64 {
	if t.IsZero() {
		return 0
	}
	return t.UnixNano()
}

type ufEntry struct {
	Name string
	Args []uint64
	Val  uint64
}

type replayCase struct {
	ID     string
	Fn     string
	Model  map[string]uint64
	UF     []ufEntry
	Bounds map[string]int
}

type caseResult struct {
	ID           string            `json:"id"`
	Failed       []string          `json:"failed"`
	Panic        string            `json:"panic,omitempty"`
	Reached      []string          `json:"reached"`
	Observe      map[string]uint64 `json:"observe"`
	AssumeFailed bool              `json:"assume_failed"`
	Tags         map[string]string `json:"tags,omitempty"`
}

var (
	cur   *replayCase
	res   *caseResult
	names map[string]int
)

type assumeFailed struct{}

func val(name string) uint64 {
	n := names[name]
	names[name] = n + 1
	full := name
	if n > 0 {
		full = fmt.Sprintf("%s#%d", name, n)
	}
	if cur == nil {
		return 0
	}
	return cur.Model[full]
}

func U64(name string) uint64 { return val(name) }
func U32(name string) uint32 { return uint32(val(name)) }
func U16(name string) uint16 { return uint16(val(name)) }
func U8(name string) uint8   { return uint8(val(name)) }
func Int(name string) int    { return int(int64(val(name))) }
func I64(name string) int64  { return int64(val(name)) }
func I32(name string) int32  { return int32(val(name)) }
func Bool(name string) bool  { return val(name) != 0 }

// Bytes returns a slice of arbitrary length <= max with arbitrary contents (the length is case-split).
func Bytes(name string, max int) []byte {
	n := int(val(name + ".len"))
	if n > max {
		n = max
	}
	b := make([]byte, n)
	for i := range b {
		b[i] = byte(val(fmt.Sprintf("%s[%d]", name, i)))
	}
	return b
}

// BytesN returns exactly n arbitrary bytes.
func BytesN(name string, n int) []byte {
	b := make([]byte, n)
	for i := range b {
		b[i] = byte(val(fmt.Sprintf("%s[%d]", name, i)))
	}
	return b
}

func String(name string, max int) string { return string(Bytes(name, max)) }

// Choose returns an arbitrary value in 0..n-1; the engine forks one path per value.
func Choose(name string, n int) int {
	v := int(val(name))
	if v >= n || v < 0 {
		return 0
	}
	return v
}

// Assume restricts the inputs (states a bound or a documented precondition).
func Assume(c bool) {
	if !c {
		if res != nil {
			res.AssumeFailed = true
		}
		panic(assumeFailed{})
	}
}

// Assert states the property.
func Assert(c bool, label string) {
	if !c {
		if res != nil {
			res.Failed = append(res.Failed, label)
			return
		}
		panic("assertion failed: " + label)
	}
}

// Reach is a reachability witness (vacuity guard): the engine requires a model reaching it.
func Reach(label string) {
	if res != nil {
		res.Reached = append(res.Reached, label)
	}
}

// Observe records a value that is compared engine-vs-native when a witness is replayed.
func Observe(name string, v uint64) {
	if res != nil {
		n := names["$obs:"+name]
		names["$obs:"+name] = n + 1
		if n > 0 {
			name = fmt.Sprintf("%s#%d", name, n)
		}
		res.Observe[name] = v
	}
}

func ObserveBool(name string, b bool) {
	if b {
		Observe(name, 1)
	} else {
		Observe(name, 0)
	}
}

func ObserveString(name string, s string) {
	Observe(name+".len", uint64(len(s)))
	for i := 0; i < len(s); i++ {
		Observe(fmt.Sprintf("%s[%d]", name, i), uint64(s[i]))
	}
}

// Tag attaches a discrete label to the current path; known findings are identified by tags.
func Tag(key, value string) {
	if res != nil {
		if res.Tags == nil {
			res.Tags = map[string]string{}
		}
		res.Tags[key] = value
	}
}

// TagInt is Tag with an integer that the engine concretises.
func TagInt(key string, v int) { Tag(key, fmt.Sprint(v)) }

// Bound returns a tier-dependent constant taken from the check specification.
func Bound(name string) int {
	if cur == nil {
		return 0
	}
	return cur.Bounds[name]
}

// UF64 is an uninterpreted function: equal arguments give equal results, nothing else is known.
func UF64(name string, args ...uint64) uint64 {
	if cur == nil {
		return 0
	}
	for _, e := range cur.UF {
		if e.Name != name || len(e.Args) != len(args) {
			continue
		}
		same := true
		for i := range args {
			if e.Args[i] != args[i] {
				same = false
				break
			}
		}
		if same {
			return e.Val
		}
	}
	return 0
}

// UFBytes is UF64 over a byte string (one application per distinct length).
func UFBytes(name string, b []byte) uint64 {
	args := make([]uint64, len(b))
	for i, c := range b {
		args[i] = uint64(c)
	}
	return UF64(fmt.Sprintf("%s/%d", name, len(b)), args...)
}

// OneOf reports whether c is one of the bytes of set (no short-circuit: a single disjunction term).
func OneOf(c byte, set string) bool {
	r := false
	for i := 0; i < len(set); i++ {
		r = r || set[i] == c
	}
	return r
}

// And, Or, Implies, Ite*: eager boolean helpers (one term, no path fork in the engine).
func And(a ...bool) bool {
	r := true
	for _, x := range a {
		r = r && x
	}
	return r
}

func Or(a ...bool) bool {
	r := false
	for _, x := range a {
		r = r || x
	}
	return r
}

func Implies(a, b bool) bool { return !a || b }

func IteU64(c bool, a, b uint64) uint64 {
	if c {
		return a
	}
	return b
}

func IteInt(c bool, a, b int) int {
	if c {
		return a
	}
	return b
}

func IteBool(c bool, a, b bool) bool {
	if c {
		return a
	}
	return b
}

// EqString compares two strings eagerly (one term).
func EqString(a, b string) bool { return a == b }

// EqBytes compares two byte slices eagerly.
func EqBytes(a, b []byte) bool { return string(a) == string(b) }

// Yield is an explicit scheduling point.
func Yield() {}

// Fork returns true on one path and false on another without any constraint (explicit case split).
func Fork(name string) bool { return val(name) != 0 }

// ReplayAll runs every case of $VERIF_REPLAY against the native build and prints one result line per case.
func ReplayAll(fns map[string]func()) {
	path := os.Getenv("VERIF_REPLAY")
	if path == "" {
		fmt.Println("ZZSKIP no VERIF_REPLAY")
		return
	}
	b, err := os.ReadFile(path)
	if err != nil {
		fmt.Println("ZZERROR", err)
		return
	}
	var cases []replayCase
	if err := json.Unmarshal(b, &cases); err != nil {
		fmt.Println("ZZERROR", err)
		return
	}
	for i := range cases {
		c := &cases[i]
		fn := fns[c.Fn]
		if fn == nil {
			continue
		}
		cur = c
		names = map[string]int{}
		res = &caseResult{ID: c.ID, Observe: map[string]uint64{}, Failed: []string{}, Reached: []string{}}
		fmt.Printf("ZZBEGIN %s\n", c.ID)
		func() {
			defer func() {
				if x := recover(); x != nil {
					if _, ok := x.(assumeFailed); ok {
						return
					}
					res.Panic = fmt.Sprint(x)
				}
			}()
			fn()
		}()
		sort.Strings(res.Failed)
		j, _ := json.Marshal(res)
		fmt.Printf("ZZRESULT %s\n", j)
		cur, res = nil, nil
	}
}

// SwapperOf is the engine's model of internal/reflectlite.Swapper (used by sort.Slice/SliceStable, whose own code is
// interpreted from its real SSA): the returned closure swaps two elements of the slice held in x. Natively
// sort uses the real reflectlite; these two functions are only reached under the engine.
func SwapperOf(x any) func(i, j int) { return func(i, j int) { SwapElems(x, i, j) } }

// SwapElems swaps x[i] and x[j] of the slice held in x (intercepted by the engine).
func SwapElems(x any, i, j int) { reflect.Swapper(x)(i, j) }
